import Driver.Common
import GoSSE.Gen.Server
import GoSSE.Spec.Sessions
import GoSSE.Spec.EventStream
import GoSSE.Spec.HttpLog
/-!
Driver ops of the server group (C16).

`SESS <shape> <faults> <ops>` — `sse.Upgrade` on a recording writer, then `Send`/`Flush` calls.
`SERVE <shape> <faults> <hdr> <onsession> <provider>` — `Server.ServeHTTP` with a recording provider.

* shape: layers joined by `.`, outermost first, each `n` (no flush method) | `f` (`Flush()`) |
  `e` (`FlushError() error`) | `b` (both); every layer but the last has `Unwrap()`.
* faults: `-` or `k:n,…` — writer call number `k` (Write and Flush calls, counted from 0) fails;
  a failing Write accepts `min n len` bytes.
* ops: `;`-joined `F` | `S:<items>`; items `,`-joined build steps of the message through the
  public API: `i=<hex>` (`NewID`), `t=<hex>` (`NewType`), `r=<ns>` (`Retry`), `d=<hex>` (`AppendData`),
  `c=<hex>` (`AppendComment`); `S:-` is the empty message.
* hdr: `-` or `;`-joined `<keyhex>=<values>` (direct map assignment; values a hex list).
* onsession: `nil` | `<ok>/<topics>/<acts>`; acts `-` or `,`-joined `h:<k>=<v>` | `c:<code>` | `w:<hex>` | `f`.
* provider: `<ret>/<ops>`; ret `nil` | `first` | `own:<hex>`.

Observation text: events `H<l>:<k>=<v>`, `W<l>:<hex>` / `W<l>:<accepted>/<offered>!<k>`,
`F<l>f`, `F<l>e`, `F<l>e!<k>`, `C<l>:<code>`, `,`-joined (`-` if none); an entry is `<events>><ret>`
with ret `nil` | `E<k>`; entries `;`-joined. SESS prints the entries or `UNSUPPORTED`; SERVE prints
`<nocall|call:events> | <nosub|sub:<U|S=hex>/<topics>> | <entries> | <events>`.

`M` is the model's observation. `S` is the verdict of the specification (`Spec/HttpLog`) on the
observation of the real code (`GO=…`), or on the model's own when no observation is given.
-/
namespace Driver.ServerD
open GoSSE Driver GoSSE.Model.Session GoSSE.Model.Server GoSSE.Spec.HttpLog

/-- split at the first occurrence of `c` -/
def cut (c : Char) (s : String) : String × Option String :=
  let l := s.toList
  match l.span (· != c) with
  | (a, []) => (String.ofList a, none)
  | (a, _ :: b) => (String.ofList a, some (String.ofList b))

def dropChars (n : Nat) (s : String) : String := String.ofList (s.toList.drop n)

def listOf (sep : String) (s : String) : List String :=
  if s == "-" || s == "" then [] else s.splitOn sep

/-! ### parsing the case -/

def parseCaps : String → Option Caps
  | "n" => some .plain | "f" => some .flusher | "e" => some .flushError | "b" => some .both
  | _ => none

def mkShape : List Caps → Option Shape
  | [] => none
  | [c] => some (.base c)
  | c :: cs => (mkShape cs).map (.wrapped c)

def parseShape (s : String) : Option Shape := (s.splitOn ".").mapM parseCaps >>= mkShape

def parseFaults (s : String) : Option (List (Nat × Nat)) :=
  (listOf "," s).mapM fun f =>
    match f.splitOn ":" with
    | [k, n] => do pure ((← k.toNat?), (← n.toNat?))
    | _ => none

def schedOf (fs : List (Nat × Nat)) : Sched := fun c => fs.lookup c

/-- `appendText`: one chunk per line of the payload (specification-side line splitter) -/
def appendText (isComment : Bool) (payload : Bytes) : List (Bytes × Bool) :=
  let r := Spec.splitLines payload [] false
  (r.1 ++ (if r.2.isEmpty then [] else [r.2])).map fun l => (l, isComment)

def buildMsg (items : List String) : Option Msg :=
  items.foldlM (init := (⟨none, none, 0, []⟩ : Msg)) fun m it =>
    match cut '=' it with
    | ("i", some v) => some { m with id := newID (unhex v) }
    | ("t", some v) => some { m with typ := newID (unhex v) }
    | ("r", some v) => (parseInt? v).map fun (ns : Int) => { m with retryMs := if ns ≤ 0 then 0 else ns.toNat / 1000000 }
    | ("d", some v) => some { m with chunks := m.chunks ++ appendText false (unhex v) }
    | ("c", some v) => some { m with chunks := m.chunks ++ appendText true (unhex v) }
    | _ => none

def parseOp (s : String) : Option Op :=
  if s == "F" then some .flush
  else match cut ':' s with
    | ("S", some items) => (buildMsg (listOf "," items)).map .send
    | _ => none

/-- `A` = the message of the previous `S:` again -/
def parseOps (s : String) : Option (List Op) :=
  (listOf ";" s).foldlM (init := ([] : List Op)) fun acc o =>
    if o == "A" then
      match acc.reverse.find? (fun op => match op with | .send _ => true | _ => false) with
      | some op => some (acc ++ [op])
      | none => some acc
    else (parseOp o).map fun op => acc ++ [op]

def parseHeader (s : String) : Option Header :=
  (listOf ";" s).mapM fun kv =>
    match cut '=' kv with
    | (k, some vs) => some (unhex k, unhexList vs)
    | _ => none

def parseAct (s : String) : Option WAct :=
  if s == "f" then some .flush
  else match cut ':' s with
    | ("h", some kv) => match cut '=' kv with
      | (k, some v) => some (.setHeader (unhex k) (unhex v))
      | _ => none
    | ("c", some code) => code.toNat?.map .writeHeader
    | ("w", some p) => some (.write (unhex p))
    | _ => none

def parseOnSession (s : String) : Option (Option OnSessionB) :=
  if s == "nil" then some none
  else match s.splitOn "/" with
    | [ok, topics, acts] => do
      let as ← (listOf "," acts).mapM parseAct
      pure (some ⟨as, unhexList topics, boolOf ok⟩)
    | _ => none

def parseProvRet (s : String) : Option ProvRet :=
  if s == "nil" then some .nil
  else if s == "first" then some .firstErr
  else match cut ':' s with
    | ("own", some t) => some (.own (unhex t))
    | _ => none

def parseProvider (s : String) : Option ProviderB :=
  match cut '/' s with
  | (ret, some ops) => do pure ⟨← parseOps ops, ← parseProvRet ret⟩
  | _ => none

/-! ### printing an observation -/

def showErr : Option Nat → String
  | some k => s!"!{k}"
  | none => ""

def showEv : Ev → String
  | .headerSet l k v => s!"H{l}:{hex k}={hex v}"
  | .write l a o none => if a == o then s!"W{l}:{hex o}" else s!"W{l}:{hex a}/{hex o}"
  | .write l a o (some k) => s!"W{l}:{hex a}/{hex o}!{k}"
  | .flush l .flusher e => s!"F{l}f{showErr e}"
  | .flush l .flushError e => s!"F{l}e{showErr e}"
  | .writeHeader l c => s!"C{l}:{c}"

def showEvs (evs : List Ev) : String := if evs.isEmpty then "-" else ",".intercalate (evs.map showEv)

def showRet : Option Nat → String
  | some k => s!"E{k}"
  | none => "nil"

def showEntry (e : Entry) : String := s!"{showEvs e.evs}>{showRet e.ret}"
def showObs (obs : List Entry) : String := if obs.isEmpty then "-" else ";".intercalate (obs.map showEntry)

def showSub : Option Subscription → String
  | none => "nosub"
  | some s => "sub:" ++ (match s.lastEventID with | some v => "S=" ++ hex v | none => "U") ++ "/" ++ hexList s.topics

def showServed (o : Served) : String :=
  (if o.onSessionCalled then "call:" ++ showEvs o.pre else "nocall") ++ " | " ++ showSub o.sub ++ " | "
    ++ showObs o.obs ++ " | " ++ showEvs o.tail

/-! ### reading an observation back (the real code's) -/

def numPrefix (s : String) : Option (Nat × String) :=
  let l := s.toList
  let (d, r) := l.span Char.isDigit
  (String.ofList d).toNat?.map fun n => (n, String.ofList r)

def readErr (s : String) : Option (Option Nat) :=
  if s == "" then some none
  else match s.toList with
    | '!' :: k => (String.ofList k).toNat?.map some
    | _ => none

def readEv (s : String) : Option Ev :=
  match s.toList with
  | tag :: rest => do
    let (l, r) ← numPrefix (String.ofList rest)
    match tag, r.toList with
    | 'H', ':' :: kv => match cut '=' (String.ofList kv) with
      | (k, some v) => some (.headerSet l (unhex k) (unhex v))
      | _ => none
    | 'W', ':' :: w =>
      let (body, e) := cut '!' (String.ofList w)
      let err ← match e with | some k => k.toNat?.map some | none => some none
      match cut '/' body with
      | (o, none) => some (.write l (unhex o) (unhex o) err)
      | (a, some o) => some (.write l (unhex a) (unhex o) err)
    | 'F', 'f' :: e => (readErr (String.ofList e)).map (.flush l .flusher)
    | 'F', 'e' :: e => (readErr (String.ofList e)).map (.flush l .flushError)
    | 'C', ':' :: c => (String.ofList c).toNat?.map (.writeHeader l)
    | _, _ => none
  | [] => none

def readEvs (s : String) : Option (List Ev) := (listOf "," s).mapM readEv

def readRet (s : String) : Option (Option Nat) :=
  if s == "nil" then some none
  else match s.toList with
    | 'E' :: k => (String.ofList k).toNat?.map some
    | _ => none

/-- entries are matched with the ops of the case, in order -/
def readObs (ops : List Op) (s : String) : Option (List Entry) :=
  let es := listOf ";" s
  if es.length != ops.length then none
  else (ops.zip es).mapM fun (op, e) =>
    match cut '>' e with
    | (evs, some ret) => do pure ⟨op, ← readEvs evs, ← readRet ret⟩
    | _ => none

def readSub (s : String) : Option (Option Subscription) :=
  if s == "nosub" then some none
  else match cut ':' s with
    | ("sub", some r) => match cut '/' r with
      | (id, some topics) =>
        let lid := if id == "U" then some none else match cut '=' id with
          | ("S", some v) => some (some (unhex v))
          | _ => none
        lid.map fun l => some ⟨l, unhexList topics⟩
      | _ => none
    | _ => none

def readServed (ops : List Op) (s : String) : Option Served :=
  match s.splitOn " | " with
  | [pre, sub, obs, tail] => do
    let (called, preEvs) ← if pre == "nocall" then some (false, []) else match cut ':' pre with
      | ("call", some evs) => (readEvs evs).map fun e => (true, e)
      | _ => none
    let sub ← readSub sub
    -- the provider may not have been called: then there are no entries
    let obs ← if sub.isNone && obs == "-" then some [] else readObs ops obs
    pure ⟨called, preEvs, sub, obs, ← readEvs tail⟩
  | _ => none

def goOf (args : List String) : Option String :=
  args.findSome? fun a => if a.startsWith "GO=" then some (dropChars 3 a) else none

/-! ### the ops -/

def sess (args : List String) : String × String :=
  match args with
  | shape :: faults :: ops :: rest =>
    match parseShape shape, parseFaults faults, parseOps ops with
    | some shape, some fs, some ops =>
      let sched := schedOf fs
      let model : Option (Res × List Entry) := (upgrade shape []).map fun (s, _) => (s.res, (runOps sched s 0 ops).obs)
      let m := match model with | some (_, obs) => showObs obs | none => "UNSUPPORTED"
      -- the specification judges the real code's observation when there is one
      let observed : Option (Option (List Entry)) := match goOf rest with
        | some "UNSUPPORTED" => some none
        | some g => (readObs ops g).map some
        | none => some (model.map (·.2))
      let s := match observed, resolve (layers shape) with
        | none, _ => "BAD:unreadable-observation"
        | some none, none => "ok"
        | some none, some _ => "BAD:upgrade-refused-a-flushing-writer"
        | some (some _), none => "BAD:upgraded-a-writer-that-cannot-flush"
        | some (some obs), some res => checkSession res obs
      (m, s)
    | _, _, _ => ("bad-args", "bad-args")
  | _ => ("bad-args", "bad-args")

def serve (args : List String) : String × String :=
  match args with
  | shape :: faults :: hdr :: ons :: prov :: rest =>
    match parseShape shape, parseFaults faults, parseHeader hdr, parseOnSession ons, parseProvider prov with
    | some shape, some fs, some hdr, some ons, some prov =>
      let sched := schedOf fs
      let model := serveHTTP sched shape hdr ons prov
      let observed : Option Served := match goOf rest with
        | some g => readServed prov.ops g
        | none => some model
      let s := match observed with
        | none => "BAD:unreadable-observation"
        | some o => checkServed shape hdr ons (provError prov.ret o.obs).isSome o
      (showServed model, s)
    | _, _, _, _, _ => ("bad-args", "bad-args")
  | _ => ("bad-args", "bad-args")

/-- `E2E …` (C05): the observation carries `## pub=<ids> ## got=<ids>` — the event IDs in the order Joe
stored them and the IDs of the events the client's callbacks saw over all its sessions. The specification
(`Spec/Sessions`): the client, once caught up, has seen the first event it received followed by exactly
the log after it — each event once, in order. `M` restates which session compositions explain it: any
split of `got.tail` into per-session prefixes is a run of `playSessions`. -/
def e2e (args : List String) : String × String :=
  match args.getLast? with
  | some g =>
    if !g.startsWith "GO=" then ("need-observation", "need-observation") else
    let parts := (g.drop 3).toString.splitOn " ## "
    let field (k : String) : Option (List String) :=
      (parts.find? (·.startsWith k)).map fun x =>
        let v := (x.drop k.length).toString
        if v == "-" then [] else v.splitOn ","
    match field "pub=", field "got=" with
    | some pub, some got =>
      match got with
      | [] => ("no-events", "BAD:nothing-received")
      | first :: rest =>
        let want := GoSSE.Proofs.afterG pub first
        let viaSessions := (GoSSE.Proofs.playSessions pub first [rest.length]).1
        let m := if viaSessions == rest then "explained" else "unexplained"
        if !pub.contains first then (m, "BAD:first-event-never-published")
        else if rest == want then (m, "ok")
        else if rest.length < want.length && rest == want.take rest.length then (m, "BAD:events-lost-at-the-end")
        else (m, s!"BAD:sequence-differs-from-the-log-after-the-first-event")
    | _, _ => ("no-observation", "no-observation")
  | none => ("bad-args", "bad-args")

/-- `SPUB <subs> <pubs>`: `Server.Publish` through Joe — a subscriber is sent a message exactly when its topics and the
publication's have a name in common, the publication's being the default topic `""` when none are given (C03 through
the server's own entry point). The model column takes the publication's topics through `getTopics` as translated from server.go, the specification column is the plain list computation. -/
def spub (args : List String) : String × String :=
  match args.filter (fun a => !a.startsWith "GO=") with
  | [subs, pubs] =>
    let topicsOf (s : String) : List Bytes := if s == "-" then [[]] else unhexList s
    let ps := (pubs.splitOn ";").map topicsOf
    -- model column: the publication's topics through `getTopics` *as translated* from server.go (Gen/Server.lean)
    let psG := (pubs.splitOn ";").map fun s =>
      match Gen.getTopics 1 (if s == "-" then [] else unhexList s) with
      | .ok l => l
      | .error _ => []
    let oneWith (ps : List (List Bytes)) (s : String) : String :=
      -- (`SPUBH`: a session whose `OnSession` names no topics is on the default topic)
      let st := if s == "-" then [[]] else unhexList s
      let got := (List.range ps.length).filter fun j => st.any fun a => ((ps[j]?).getD []).any fun b => a == b
      if got.isEmpty then "-" else ".".intercalate (got.map toString)
    (";".intercalate ((subs.splitOn ";").map (oneWith psG)), ";".intercalate ((subs.splitOn ";").map (oneWith ps)))
  | _ => ("bad-args", "bad-args")

def handle (op : String) (args : List String) : Option (String × String) :=
  match op with
  | "SPUB" => some (spub args)
  | "SPUBH" => some (spub args)
  | "SESS" => some (sess args)
  | "SERVE" => some (serve args)
  | "E2E" => some (e2e args)
  | _ => none

end Driver.ServerD
