import Driver.ServerD
import GoSSE.Proofs.GenEquivSession
/-!
`GSESS <args of SESS>`: `Session.Send / Flush / doUpgrade` **as translated** (`GoSSE/Gen/Session.lean`, regenerated
from /repo's session.go on every run; `Send` goes through the translated `Message.WriteTo`) over the recording response
writer with the case's fault schedule (`GenEquiv.resOf`). Model column = the translated code's observation (per call:
the writer events it caused and what it returned), specification column = the hand-written model's
(`Model/Session.lean`); the real code's observation must equal both.
-/
namespace Driver.GenSessionD
open GoSSE GoSSE.GoRT Driver Driver.ServerD GoSSE.Model.Session GoSSE.Model.Server

/-- the session model's message as the translated `Message` -/
def genMsg (m : Msg) : Gen.Message :=
  { chunks := m.chunks.map fun c => { content := c.1, isComment := c.2 },
    ID := { messageField := match m.id with | some v => { value := v, set := true } | none => { value := [], set := false } },
    Type' := { messageField := match m.typ with | some v => { value := v, set := true } | none => { value := [], set := false } },
    Retry := (m.retryMs : Int) * 1000000 }

def lid0 : Gen.EventID := { messageField := { value := [], set := false } }

def retOf (e : Option String) : Option Nat := e.bind (·.toNat?)

def run (fuel : Nat) : Gen.Session GenEquiv.SSt → List Op → List Entry → Except Fault (List Entry)
  | _, [], acc => .ok acc.reverse
  | g, op :: ops, acc =>
    let before := g.Res.st.2.length
    match op with
    | .send m =>
      match Gen.Session_Send fuel g (genMsg m) with
      | .error f => .error f
      | .ok r => run fuel r.2.1 ops (⟨op, r.2.1.Res.st.2.drop before, retOf r.1⟩ :: acc)
    | .flush =>
      match Gen.Session_Flush fuel g with
      | .error f => .error f
      | .ok r => run fuel r.2 ops (⟨op, r.2.Res.st.2.drop before, retOf r.1⟩ :: acc)

def gsess (args : List String) : String × String :=
  match args with
  | shape :: faults :: ops :: _ =>
    match parseShape shape, parseFaults faults, parseOps ops with
    | some shape, some fs, some ops =>
      let sched := schedOf fs
      match upgrade shape [] with
      | none => ("UNSUPPORTED", "UNSUPPORTED")
      | some (s, _) =>
        let hand := showObs (runOps sched s 0 ops).obs
        let fuel := 20 + ops.foldl (fun n op => match op with | .send m => max n m.chunks.length | .flush => n) 0
        match run fuel (GenEquiv.toGenS sched s (0, []) lid0) ops [] with
        | .error (.panic _) => ("PANIC", hand)
        | .error .fuel => ("FUEL", hand)
        | .ok obs => (showObs obs, hand)
    | _, _, _ => ("bad-args", "bad-args")
  | _ => ("bad-args", "bad-args")

def handle (op : String) (args : List String) : Option (String × String) :=
  match op with
  | "GSESS" => some (gsess args)
  | _ => none

end Driver.GenSessionD
