import Driver.Common
import GoSSE.Model.Parser
/-! Driver ops for the parser stack (C01, C11-read, C20). -/
namespace Driver.ParserD
open GoSSE GoSSE.Spec GoSSE.Model Driver

def showOut : Out → String
  | .event e => s!"E {hex e.lastEventID} {hex e.type} {hex e.data}"
  | .retry n => s!"R {n}"
def showOuts (o : List Out) : String := if o.isEmpty then "-" else ";".intercalate (o.map showOut)
def showPErr : PErr → String
  | .none => "nil" | .eof => "EOF" | .unexpectedEOF => "UEOF" | .read => "READ" | .tooLong => "TOOLONG"
def showEnd (conn : Bool) : EndCond → String
  | .clean => if conn then "EOF" else "nil" | .unexpectedEOF => "UEOF" | .readErr => "READ"

def parseCfg (cfg : String) : Option (Nat × Int) :=
  match cfg.splitOn ":" with
  | ["r", m] => cfgOfRead (parseInt? m)
  | ["c", b, m] => cfgOfConn (if b == "n" then none else b.toNat?) ((parseInt? m).getD 0)
  | _ => none

def parseInitialInterval : Int := 3600000000007

/-- `PARSE <conn> <endErr> <errWithLast> <cfg> <stop: - | k> <lastID> <chunks>`;
cfg: `-` | `r:<max>` (ReadConfig) | `c:<cap|n>:<max>` (Connection.Buffer) -/
def parse (args : List String) : String × String :=
  match args with
  | c :: e :: ewl :: cfg :: stop :: lid :: chunks :: _ =>
    let conn := boolOf c
    let endErr := boolOf e
    let cs := (unhexList chunks).filter (!·.isEmpty)
    let stopAt := stop.toNat?
    let src : Source := { chunks := cs, endErr := endErr, errWithLast := boolOf ewl }
    let r := implRun conn (unhex lid) src (parseCfg cfg) stopAt
    let sp := Spec.run .gosse conn (unhex lid) cs.flatten (if endErr then .err else .eof)
    let evs (o : List Out) := o.filter fun x => match x with | .event _ => true | _ => false
    let wait (o : List Out) := if conn then toString (retryInterval parseInitialInterval o) else "-"
    -- the specification's yields, cut where the consumer stops (early stop = prefix)
    let spEvs := evs sp.1
    let cut := match stopAt with | some k => decide (spEvs.length ≥ k) | none => false
    let spEvs' := match stopAt with | some k => spEvs.take k | none => spEvs
    let spEnd := if cut then "nil" else showEnd conn sp.2
    (s!"{showOuts (evs r.1)} | {showPErr r.2.1} | {r.2.2} | {wait r.1}",
     s!"{showOuts spEvs'} | {spEnd} | {wait sp.1}")
  | _ => ("bad-args", "bad-args")

def handle (op : String) (args : List String) : Option (String × String) :=
  match op with
  | "PARSE" => some (parse args)
  | _ => none

end Driver.ParserD
