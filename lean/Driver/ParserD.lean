import Driver.Common
import GoSSE.Model.Parser
/-! Driver ops for the parser stack (C01, C11-read, C20). -/
namespace Driver.ParserD
open GoSSE GoSSE.Spec GoSSE.Model Driver

def showOut : Out → String
  | .event e => s!"E {hex e.lastEventID} {hex e.type} {hex e.data}"
  | .retry n => s!"R {n}"
def showOuts (o : List Out) : String := if o.isEmpty then "-" else ";".intercalate (o.map showOut)
def showPErr : PErr → String
  | .none => "nil" | .eof => "EOF" | .unexpectedEOF => "UEOF" | .read => "READ" | .tooLong => "TOOLONG"
def showEnd (conn : Bool) : EndCond → String
  | .clean => if conn then "EOF" else "nil" | .unexpectedEOF => "UEOF" | .readErr => "READ"

def parseCfg (cfg : String) : Option (Nat × Int) :=
  match cfg.splitOn ":" with
  | ["r", m] => cfgOfRead (parseInt? m)
  | ["c", b, m] => cfgOfConn (if b == "n" then none else b.toNat?) ((parseInt? m).getD 0)
  -- `:w`: the stream is served to the connection's second attempt, after an empty one
  | ["c", b, m, "w"] => cfgOfConn (if b == "n" then none else b.toNat?) ((parseInt? m).getD 0)
  | _ => none

/-- Event boundaries of a stream as the specification sees them (same state machine as
`GoSSE.Proofs.pieceLen`, written with an accumulator so that long streams do not need a deep stack):
the lengths of the complete pieces (blank lines + an event's lines + the terminator closing it) and the
length of the unfinished remainder. -/
def pieceLens : Bytes → Nat → Nat → List Nat → List Nat × Nat
  | [], _, cur, acc => (acc.reverse, cur)
  | b :: t, st, cur, acc =>
    match st with
    | 0 => if isNl b then pieceLens t 0 (cur + 1) acc else pieceLens t 1 (cur + 1) acc
    | 1 => if b == 10 then pieceLens t 2 (cur + 1) acc else if b == 13 then pieceLens t 3 (cur + 1) acc
           else pieceLens t 1 (cur + 1) acc
    | 2 =>
      if b == 10 then pieceLens t 0 0 ((cur + 1) :: acc)
      else if b == 13 then pieceLens t 4 0 ((cur + 1) :: acc)
      else pieceLens t 1 (cur + 1) acc
    | 3 =>
      if b == 10 then pieceLens t 2 (cur + 1) acc
      else if b == 13 then pieceLens t 4 0 ((cur + 1) :: acc)
      else pieceLens t 1 (cur + 1) acc
    | _ =>
      -- a piece was just closed by a CR: an LF right after it still belongs to that piece
      if b == 10 then pieceLens t 0 0 (match acc with | n :: r => (n + 1) :: r | [] => [])
      else if isNl b then pieceLens t 0 (cur + 1) acc else pieceLens t 1 (cur + 1) acc

/-- `limitOf` of `GoSSE.Proofs` -/
def limitOf (cfg : Option (Nat × Int)) : Nat :=
  match cfg with
  | none => 65536
  | some (capBuf, max) => Nat.max capBuf max.toNat

/-- C20's two clauses on the specification side: does every piece fit the limit (`FitsLimit`: complete
pieces `< L`, the remainder with one byte of slack), and an upper bound on the bytes pulled from the
reader when `ErrTooLong` is reported. -/
def fitsAndBound (L : Nat) (s : Bytes) : Bool × Nat :=
  let pr := pieceLens s 0 0 []
  let fits := pr.1.all (· < L) && decide (pr.2 + 1 < L)
  -- a piece of L+2 bytes or more can never be consumed (a piece of L or L+1 bytes sometimes can: its token
  -- may end at the CR of the closing CRLF); everything before the first such piece, plus L, bounds the reads
  let rec go : List Nat → Nat → Nat
    | [], before => before + L
    | n :: ns, before => if n < L + 2 then go ns (before + n) else before + L
  (fits, go pr.1 0)

/-- the converse: a piece of `L + 2` bytes or more, or an unfinished remainder of `L + 1` bytes or more, can
never be held in the buffer, whatever the segmentation: the run must end in `ErrTooLong` -/
def mustTooLong (L : Nat) (s : Bytes) : Bool :=
  let pr := pieceLens s 0 0 []
  pr.1.any (· ≥ L + 2) || decide (pr.2 ≥ L + 1)

def parseInitialInterval : Int := 3600000000007

/-- `PARSE <conn> <endErr> <errWithLast> <cfg> <stop: - | k> <lastID> <chunks>`;
cfg: `-` | `r:<max>` (ReadConfig) | `c:<cap|n>:<max>[:w]` (Connection.Buffer; `:w` = on the second attempt) -/
def parse (args : List String) : String × String :=
  match args with
  | c :: e :: ewl :: cfg :: stop :: lid :: chunks :: _ =>
    let conn := boolOf c
    let endErr := boolOf e
    let cs := (unhexList chunks).filter (!·.isEmpty)
    let stopAt := stop.toNat?
    let src : Source := { chunks := cs, endErr := endErr, errWithLast := boolOf ewl }
    let r := implRun conn (unhex lid) src (parseCfg cfg) stopAt
    let sp := Spec.run .gosse conn (unhex lid) cs.flatten (if endErr then .err else .eof)
    let evs (o : List Out) := o.filter fun x => match x with | .event _ => true | _ => false
    -- (`:w`: the connection's initial interval is 1 ms + 7 ns, so that the wait before the second attempt is short)
    let base : Int := if cfg.endsWith ":w" then 1000007 else parseInitialInterval
    let wait (o : List Out) := if conn then toString (retryInterval base o) else "-"
    -- the specification's yields, cut where the consumer stops (early stop = prefix)
    let spEvs := evs sp.1
    let cut := match stopAt with | some k => decide (spEvs.length ≥ k) | none => false
    let spEvs' := match stopAt with | some k => spEvs.take k | none => spEvs
    let spEnd := if cut then "nil" else showEnd conn sp.2
    let fb := fitsAndBound (limitOf (parseCfg cfg)) cs.flatten
    (s!"{showOuts (evs r.1)} | {showPErr r.2.1} | {r.2.2} | {wait r.1}",
     s!"{showOuts spEvs'} | {spEnd} | {wait sp.1} | fits={showBool fb.1} bound={fb.2} must={showBool (mustTooLong (limitOf (parseCfg cfg)) cs.flatten)}")
  | _ => ("bad-args", "bad-args")

def handle (op : String) (args : List String) : Option (String × String) :=
  match op with
  | "PARSE" => some (parse args)
  | _ => none

end Driver.ParserD
