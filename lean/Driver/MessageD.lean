import Driver.Common
import GoSSE.Spec.Message
/-! Driver ops of the message side (C02, C14, C15, C19); `handle op args` returns `none` for
ops it does not know.

Message script (one token): ops joined by `;` (`-` = none):
`d:<hexlist>` AppendData, `c:<hexlist>` AppendComment, `i:<hex>` `m.ID, _ = NewID`,
`t:<hex>` `m.Type, _ = NewType`, `r:<int>` Retry in ns. -/
namespace Driver.MessageD
open GoSSE GoSSE.Spec GoSSE.Model Driver

def splitFirst (s : String) (c : Char) : String × String :=
  match s.splitOn (String.singleton c) with
  | [] => ("", "")
  | a :: rest => (a, (String.singleton c).intercalate rest)

def parseBuildOp (s : String) : Option BuildOp :=
  let (k, v) := splitFirst s ':'
  match k with
  | "d" => some (.appendData (unhexList v))
  | "c" => some (.appendComment (unhexList v))
  | "i" => some (.setID (unhex v))
  | "t" => some (.setType (unhex v))
  | "r" => (parseInt? v).map .setRetry
  | _ => none

def parseMsg (s : String) : List BuildOp :=
  if s == "-" then [] else (s.splitOn ";").filterMap parseBuildOp

def showEvent (e : Event) : String := s!"E {hex e.lastEventID} {hex e.type} {hex e.data}"
def showOuts (o : List Out) : String :=
  let ev := o.filterMap fun x => match x with | .event e => some (showEvent e) | _ => none
  if ev.isEmpty then "-" else ";".intercalate ev
def showPErr : PErr → String
  | .none => "nil" | .eof => "EOF" | .unexpectedEOF => "UEOF" | .read => "READ" | .tooLong => "TOOLONG"
def showEnd : EndCond → String
  | .clean => "nil" | .unexpectedEOF => "UEOF" | .readErr => "READ"

def goField (args : List String) : String :=
  match args.getLast? with
  | some g => if g.startsWith "GO=" then (g.drop 3).toString else ""
  | none => ""

def dropGo (args : List String) : List String := args.filter fun a => !a.startsWith "GO="

/-- `ENC <msg> <msg> …` -/
def enc (args : List String) : String × String :=
  let go := goField args
  let scripts := (dropGo args).map parseMsg
  let ms := scripts.map build
  let bytes := ms.flatMap fun m => (m.writeTo bufWriter []).st
  let agree := ms.all fun m =>
    let r := m.writeTo bufWriter []
    r.n == r.st.length && m.marshalText == r.st && m.string == r.st && r.st == m.encode && !r.panic
  let dec := implRun false [] { chunks := [bytes].filter (!·.isEmpty), endErr := false } none
  let goBytes := unhex ((go.splitOn " | ").headD "-")
  let sg := Spec.run .gosse false [] goBytes .eof
  let sw := Spec.run .whatwg false [] goBytes .eof
  let bs := scripts.map describe
  (s!"{hex bytes} | {showBool agree} | {showOuts dec.1} | {showPErr dec.2.1}",
   s!"{showOuts sg.1} | {showEnd sg.2} | {showOuts sw.1} | {showEnd sw.2} | {showOuts (expected .gosse [] bs)} | {showOuts (expected .whatwg [] bs)}")

/-- fault-injecting writer: call number `k` accepts `min j len(p)` bytes and fails if `e` or short -/
def faultWriter (k : Option Nat) (j : Nat) (e : Bool) : Writer Nat Unit :=
  ⟨fun idx p =>
    if some idx == k then (min j p.length, if e || j < p.length then some () else none, idx + 1)
    else (p.length, none, idx + 1)⟩

def showWR (r : WR Nat Unit) : String :=
  let e := if r.panic then "PANIC" else if r.err.isSome then "FAULT" else "nil"
  s!"{r.n} | {e} | {hex (accepted r.log)} | {r.log.length} | {if r.err.isSome then 1 else 0}"

/-- C15's demand on `WriteTo`, judged on what the real code did (`n | err | accepted bytes | Write calls | a Write failed`)
whatever the number and the boundaries of its Write calls: the count returned is what the writer accepted, which is a
prefix of the encoding; a writer's failure is returned; with no failure the whole encoding was written. -/
def wtVerdict (m : Message) (go : String) : String :=
  match go.splitOn " | " with
  | [n, e, acc, _, f] =>
    let a := unhex acc
    if n.toNat? != some a.length then "bad:count-is-not-what-the-writer-accepted"
    else if !(a.isPrefixOf m.encode) then "bad:not-a-prefix-of-the-encoding"
    else if f == "1" && e != "FAULT" then "bad:the-writer's-error-was-not-returned"
    else if f == "0" && e != "nil" then "bad:error-without-a-failing-write"
    else if f == "0" && a != m.encode then "bad:encoding-incomplete-though-no-write-failed"
    else "ok"
  | _ => "bad-observation"

/-- `WT <msg> <k|-> <j> <e>` -/
def wt (args : List String) : String × String :=
  match dropGo args with
  | [ms, k, j, e] =>
    let m := build (parseMsg ms)
    let w := faultWriter k.toNat? (j.toNat?.getD 0) (boolOf e)
    -- (the model's own run through the specification's `writeAll` must agree with it too: `spec-run-differs` otherwise)
    let viaSpec := showWR (writeAll w { n := 0, err := none, st := 0, log := [] } m.writes)
    let mr := showWR (m.writeTo w 0)
    (mr, if mr != viaSpec then "bad:spec-run-differs" else wtVerdict m (goField args))
  | _ => ("bad-args", "bad-args")

def showField (f : MField) : String := if f.set then "s:" ++ hex f.value else "u"
def showUErr : UErr → String
  | .nil => "nil" | .retryNonDigit => "RETRY-NONDIGIT" | .retrySyntax => "RETRY-SYNTAX"
  | .retryRange => "RETRY-RANGE" | .unexpectedEOF => "UEOF"
def showMsg (m : Message) : String :=
  s!"I={showField m.id} T={showField m.typ} R={m.retry} W={hex m.encode}"

/-- `RT <msg>` -/
def rt (args : List String) : String × String :=
  match dropGo args with
  | [ms] =>
    let m := build (parseMsg ms)
    let r := Message.unmarshalText m.encode
    let applicable := hasField m && !(m.id.set && m.id.value.contains 0)
    (s!"{showUErr r.2} | {showMsg r.1}",
     if applicable then s!"nil | {showMsg (normalise m)}" else "n/a")
  | _ => ("bad-args", "bad-args")

def nlFree (v : Bytes) : Bool := !hasNewline v

/-- fields of `I=… T=… R=… W=…` -/
def kv (s : String) (key : String) : String :=
  match (s.splitOn " ").find? (·.startsWith (key ++ "=")) with
  | some t => (t.drop (key.length + 1)).toString
  | none => ""

def fieldOfShow (s : String) : MField :=
  if s.startsWith "s:" then { value := unhex (s.drop 2).toString, set := true } else {}

/-- `UT <hex text>`: `Message.UnmarshalText` on arbitrary text -/
def ut (args : List String) : String × String :=
  let go := goField args
  match dropGo args with
  | [t] =>
    let r := Message.unmarshalText (unhex t)
    let gm := ((go.splitOn " | ").drop 1).headD ""
    let gi := fieldOfShow (kv gm "I")
    let gt := fieldOfShow (kv gm "T")
    let v := if gi.set && hasNewline gi.value then "bad:id-multiline"
             else if gt.set && hasNewline gt.value then "bad:type-multiline" else "ok"
    (s!"{showUErr r.2} | {showMsg r.1}", v)
  | _ => ("bad-args", "bad-args")

def showFErr : FErr → String
  | .nil => "nil" | .json => "JSON" | .multiline => "MULTILINE" | .unsupported => "UNSUP"

def isJSONSpace (b : Byte) : Bool := b == 32 || b == 9 || b == 10 || b == 13
def trimJSON (d : Bytes) : Bytes := ((d.dropWhile isJSONSpace).reverse.dropWhile isJSONSpace).reverse

def prevField : MField := { value := [112, 114, 101, 118], set := true }

/-- the wire form of a message carrying the field as ID (`isType = false`) or type -/
def wireOf (isType : Bool) (f : MField) : Bytes :=
  (if isType then ({ typ := f } : Message) else ({ id := f } : Message)).encode

/-- C14's demand, judged on what the real code returned (`set`, `val`, `err`, `wire`).
`input` is the string the route was given where there is one; `hasErr` whether the route can
report an error. -/
def fieldVerdict (isType : Bool) (input : Option Bytes) (hasErr : Bool) (g : MField) (gerr : String) (gwire : Bytes) : String :=
  if g.set && hasNewline g.value then "bad:set-multiline"
  else if (match input with | some i => hasNewline i && g.set | none => false) then "bad:multiline-input-set"
  else if (match input with | some i => hasNewline i && hasErr && gerr == "nil" | none => false) then "bad:multiline-input-no-error"
  else
    -- the wire form of a message carrying it: exactly that one field, decoded as such
    let b : Built := if !g.set then {} else if isType then { typ := some g.value } else { id := some g.value }
    let sr := Spec.run .gosse false [] gwire .eof
    if sr != (expected .gosse [] [b], .clean) then "bad:wire-injects"
    else "ok"

/-- `FLD <route> <args…>` -/
def fld (args : List String) : String × String :=
  let go := goField args
  let gparts := go.splitOn " "
  let g : MField := if gparts.headD "" == "1" then { value := unhex ((gparts.drop 1).headD "-"), set := true } else {}
  let gerr := (gparts.drop 2).headD ""
  let gwire := unhex (kv go "W")
  let gj := kv go "J"
  let out (isType : Bool) (f : MField) (e : String) (j : String) : String :=
    s!"{showBool f.set} {hex f.value} {e} W={hex (wireOf isType f)}" ++ (if j.isEmpty then "" else " J=" ++ j)
  let a := dropGo args
  let route := a.headD ""
  let isType := route.endsWith "type"
  let arg1 := (a.drop 1).headD "-"
  let arg2 := (a.drop 2).headD "-"
  let v := fun (input : Option Bytes) (hasErr : Bool) => fieldVerdict isType input hasErr g gerr gwire
  if route == "newid" || route == "newtype" then
    let r := newID (unhex arg1)
    (out isType r.1 (if r.2 then "MULTILINE" else "nil") "", v (some (unhex arg1)) true)
  else if route == "id" || route == "type" then
    match mustID (unhex arg1) with
    | some f => (out isType f "nil" "", v (some (unhex arg1)) true)
    | none => (out isType {} "PANIC" "", v (some (unhex arg1)) true)
  else if route == "utext-id" || route == "utext-type" then
    let r := MField.unmarshalText prevField (unhex arg1)
    (out isType r.1 (if r.2 then "MULTILINE" else "nil") "", v (some (unhex arg1)) true)
  else if route == "json-id" || route == "json-type" then
    let dec := if gj == "!" || gj == "" then none else some (unhex gj)
    let r := MField.unmarshalJSON prevField (unhex arg1) dec
    (out isType r.1 (showFErr r.2) gj, v dec true)
  else if route == "jsonstd-id" || route == "jsonstd-type" then
    -- J=<valid>:<decoded|!>; `encoding/json` leaves the receiver alone when the document is invalid
    let (valid, d) := splitFirst gj ':'
    let dec := if d == "!" || d == "" then none else some (unhex d)
    if valid != "1" then (out isType prevField "JSON" gj, v none true)
    else
      let r := MField.unmarshalJSON prevField (trimJSON (unhex arg1)) dec
      (out isType r.1 (showFErr r.2) gj, v dec true)
  else if route == "scan-id" || route == "scan-type" then
    let src : ScanSrc := match arg1 with
      | "nil" => .nil | "bytes" => .bytes (unhex arg2) | "string" => .string (unhex arg2) | _ => .other
    let r := MField.scan prevField src
    let input := match src with | .bytes b => some b | .string b => some b | _ => none
    (out isType r.1 (showFErr r.2) "", v input true)
  else if route == "hdr" then
    -- `hdr <c|l|s> <hexlist>`: only the canonical key is looked at
    let vals := unhexList arg2
    let h := if arg1 == "l" then [] else vals
    let f := upgradeLastEventID h
    (out false f "nil" "", fieldVerdict false (if arg1 == "l" then none else vals.head?) false g gerr gwire)
  else ("bad-route", "bad-route")

/-! ### C19 -/

def parseFOp (s : String) : Option FOp :=
  let (k, v) := splitFirst s ':'
  let idx := (k.drop 1).toString.toNat?
  match (k.take 1).toString, idx with
  | "D", some i => some (.appendData i (unhexList v))
  | "C", some i => some (.appendComment i (unhexList v))
  | "I", some i => some (.setID i (unhex v))
  | "T", some i => some (.setType i (unhex v))
  | "R", some i => (parseInt? v).map (.setRetry i)
  | "K", some i => some (.clone i)
  | "U", some i => some (.unmarshal i (unhex v))
  | "P", some i => (v.toNat?.filter (· < 4)).map (.put i)
  | _, _ => none

def showPut : PutRes → String
  | .errNoID => "N" | .errHasID => "H" | .same i => s!"={i}" | .fresh k => s!"+{k}" | .panic => "PANIC"
def showPuts (p : List PutRes) : String := if p.isEmpty then "-" else ",".intercalate (p.map showPut)
def showSnap (ms : List Message) : String := hexList (ms.map Message.encode)

/-- growth policy of the model run: roughly Go's doubling (the theorems hold for every policy) -/
def goLikeExtra (_ : Nat) : Nat := 3

/-- `FAM <script>`: a snapshot of every member's encoding after every op -/
def fam (args : List String) : String × String :=
  match dropGo args with
  | [script] =>
    let ops := if script == "-" then [] else (script.splitOn ";").filterMap parseFOp
    let stepH := fun (acc : FamState × List String) (op : FOp) =>
      let st := acc.1.step goLikeExtra op
      (st, acc.2 ++ [showSnap st.views])
    let h := ops.foldl stepH (({} : FamState), [])
    let stepP := fun (acc : PureState × List String) (op : FOp) =>
      let st := acc.1.step op
      (st, acc.2 ++ [showSnap st.fam])
    let p := ops.foldl stepP (({} : PureState), [])
    let j := fun (l : List String) => if l.isEmpty then "-" else ";".intercalate l
    (s!"{j h.2} | {showPuts h.1.puts}", s!"{j p.2} | {showPuts p.1.puts}")
  | _ => ("bad-args", "bad-args")

def handle (op : String) (args : List String) : Option (String × String) :=
  match op with
  | "ENC" => some (enc args)
  | "CFLD" => some ("ok", "ok")   -- the constructors called concurrently with a multi-line value: every call panics (judged by the harness)
  | "CENC" => some ("ok", "ok")   -- concurrent encodings of clones: each is the member's own (judged by the harness)
  | "WT" => some (wt args)
  | "RT" => some (rt args)
  | "UT" => some (ut args)
  | "FLD" => some (fld args)
  | "FAM" => some (fam args)
  | _ => none

end Driver.MessageD
