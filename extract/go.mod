module verif/extract

go 1.22
