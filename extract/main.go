// Command extract re-reads the source of tmaxmax/go-sse on every run of a check and prints, as JSON,
// the facts the Lean models hard-code: constants, header names, the inventory of statements that
// construct or assign a messageField, the lock discipline around the Connection's callback
// registry, the verifHook call sites, and a fingerprint of every function body.
package main

import (
	"crypto/sha1"
	"encoding/hex"
	"encoding/json"
	"fmt"
	"go/ast"
	"go/parser"
	"go/printer"
	"go/token"
	"os"
	"path/filepath"
	"sort"
	"strconv"
	"strings"
)

func main() {
	if len(os.Args) < 2 {
		fmt.Fprintln(os.Stderr, "usage: extract <repo>")
		os.Exit(2)
	}
	repo := os.Args[1]
	facts := map[string]any{}
	fset := token.NewFileSet()
	for _, dir := range []string{".", "internal/parser"} {
		pkgs, err := parser.ParseDir(fset, filepath.Join(repo, dir), func(fi os.FileInfo) bool {
			return !strings.HasSuffix(fi.Name(), "_test.go") && !strings.HasPrefix(fi.Name(), "verif_")
		}, parser.ParseComments)
		if err != nil {
			fmt.Fprintln(os.Stderr, err)
			os.Exit(1)
		}
		for _, pkg := range pkgs {
			for fname, f := range pkg.Files {
				scanFile(fset, filepath.Base(fname), f, facts)
			}
		}
	}
	// canonical ordering of list facts
	for k, v := range facts {
		if l, ok := v.([]string); ok {
			sort.Strings(l)
			facts[k] = l
		}
	}
	out, _ := json.MarshalIndent(facts, "", " ")
	fmt.Println(string(out))
}

func lit(e ast.Expr) (string, bool) {
	switch v := e.(type) {
	case *ast.BasicLit:
		if v.Kind == token.STRING {
			s, err := strconv.Unquote(v.Value)
			return s, err == nil
		}
		return v.Value, true
	case *ast.CallExpr: // FieldName("data")
		if len(v.Args) == 1 {
			return lit(v.Args[0])
		}
	case *ast.CompositeLit: // []string{"text/event-stream"}
		if len(v.Elts) == 1 {
			return lit(v.Elts[0])
		}
	}
	return "", false
}

func add(facts map[string]any, key, v string) {
	l, _ := facts[key].([]string)
	facts[key] = append(l, v)
}

func nodeString(fset *token.FileSet, n ast.Node) string {
	var sb strings.Builder
	_ = printer.Fprint(&sb, fset, n)
	return sb.String()
}

func scanFile(fset *token.FileSet, file string, f *ast.File, facts map[string]any) {
	// package-level constants and variables with literal values
	for _, d := range f.Decls {
		gd, ok := d.(*ast.GenDecl)
		if !ok {
			continue
		}
		for _, sp := range gd.Specs {
			vs, ok := sp.(*ast.ValueSpec)
			if !ok {
				continue
			}
			for i, n := range vs.Names {
				if i < len(vs.Values) {
					if s, ok := lit(vs.Values[i]); ok {
						facts["const:"+n.Name] = s
					}
				}
			}
		}
	}
	for _, d := range f.Decls {
		fd, ok := d.(*ast.FuncDecl)
		if !ok || fd.Body == nil {
			continue
		}
		name := fd.Name.Name
		if fd.Recv != nil && len(fd.Recv.List) == 1 {
			name = strings.TrimPrefix(nodeString(fset, fd.Recv.List[0].Type), "*") + "." + name
		}
		name = strings.ReplaceAll(name, "[T]", "")
		// fingerprint of the body (formatting- and comment-insensitive)
		h := sha1.Sum([]byte(nodeString(fset, fd.Body)))
		facts["fp:"+file+":"+name] = hex.EncodeToString(h[:6])

		touchesRegistry := false
		locks := map[string]bool{}
		hooks := 0
		ast.Inspect(fd.Body, func(n ast.Node) bool {
			switch v := n.(type) {
			case *ast.BasicLit:
				// local constants the models depend on
				if v.Kind == token.STRING && name == "FieldParser.doRemoveBOM" {
					if s, err := strconv.Unquote(v.Value); err == nil {
						facts["bom"] = hex.EncodeToString([]byte(s))
					}
				}
			case *ast.AssignStmt:
				for i, l := range v.Lhs {
					if id, ok := l.(*ast.Ident); ok && id.Name == "minCap" && i < len(v.Rhs) {
						if s, ok := lit(v.Rhs[i]); ok {
							facts["minCap:"+name] = s
						}
					}
					// statements that assign the fields of a messageField
					if se, ok := l.(*ast.SelectorExpr); ok && (se.Sel.Name == "set" || se.Sel.Name == "value") && file != "replay.go" {
						add(facts, "messageField.assignments", name+":"+nodeString(fset, se))
					}
					// *i = messageField{} / *i = id
					if st, ok := l.(*ast.StarExpr); ok && strings.HasPrefix(name, "messageField.") {
						add(facts, "messageField.assignments", name+":"+nodeString(fset, st)+"="+nodeString(fset, v.Rhs[i]))
					}
				}
			case *ast.CompositeLit:
				if id, ok := v.Type.(*ast.Ident); ok && id.Name == "messageField" {
					add(facts, "messageField.literals", name+":"+nodeString(fset, v))
				}
			case *ast.SelectorExpr:
				if v.Sel.Name == "callbacks" || v.Sel.Name == "callbacksAll" || v.Sel.Name == "callbackID" {
					touchesRegistry = true
				}
			case *ast.CallExpr:
				if id, ok := v.Fun.(*ast.Ident); ok && id.Name == "verifHook" {
					hooks++
				}
				if se, ok := v.Fun.(*ast.SelectorExpr); ok {
					if inner, ok := se.X.(*ast.SelectorExpr); ok && inner.Sel.Name == "mu" {
						locks[se.Sel.Name] = true
					}
				}
			}
			return true
		})
		if touchesRegistry && file == "client_connection.go" {
			var ls []string
			for l := range locks {
				ls = append(ls, l)
			}
			sort.Strings(ls)
			add(facts, "registry.lockDiscipline", name+":"+strings.Join(ls, "+"))
		}
		if hooks > 0 {
			add(facts, "hooks", fmt.Sprintf("%s:%d", name, hooks))
		}
	}
}
