#!/bin/sh
# Build the framework from files on disk only (offline): the Lean models, theorems and the
# model driver; the Go harness and the fact extractor (both rebuilt by every check anyway).
set -e
cd "$(dirname "$0")"
export GOFLAGS=-mod=mod GOPROXY=off GOSUMDB=off GOTOOLCHAIN=local
mods=$(cd lean && ls GoSSE/Props/*.lean | sed 's/\.lean$//; s#/#.#g')
(cd lean && lake build gosse-model $mods)
(cd harness && go build -tags verif -o harness .)
if [ -f extract/main.go ]; then (cd extract && go build -o extract .); fi
echo setup-ok
